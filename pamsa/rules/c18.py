"""C18 -- configuration expansion: inheritance, counts/ranges, names, random values, aliases."""
from __future__ import annotations

from typing import Any, Dict, List, Optional, Tuple

from ..kit import Case, Ctx, alloc_literal, calls, calls_target, kw, loops, normal_paths, poly_of, rule, short, stores, table_check_cases
from ..paths import Event, Path
from ..terms import NONE, Term, key, strip_ver, subterms

JE = "pams.utils.json_extends:json_extends"
FC = "pams.utils.class_finder:find_class"


@rule("C18.R1", "inheritance: start from a copy of the entry; while it names a parent: missing parent and cycles are errors, otherwise merge the parent's inheritable keys underneath what is already accumulated", "T4 loop structure + T10", floor=5)
def r1(ctx: Ctx) -> None:
    f = ctx.func(JE)
    n = 0
    for p in normal_paths(ctx.paths(JE)):
        wl = [l for l in loops(p) if l.loopkind == "while"]
        if not wl and any(calls_target(e, JE) for e in calls(p)):
            ctx.unrec(f, f.node, "the `extends` chain is followed to its end", "the chain is followed by recursion; the rule models the loop form only")
            n += 1
            continue
        if not wl and not any("extends" in key(strip_ver(c)) for c, _, _ in p.conds):
            continue
        ctx.check(len(wl) == 1 or (not wl and any(pol is False and "extends" in key(strip_ver(c)) for c, pol, _ in p.conds)), f, f.node, "one loop following the `extends` chain", "while 'extends' in results", f"{len(wl)} loop(s)")
        if len(wl) != 1:
            continue
        l = wl[0]
        # the accumulated result: the loop-carried dict that is returned
        names = [k for k, v in l.out.items() if p.exit[0] == "return" and v == p.exit[1]]
        ctx.check(len(names) == 1, f, f.node, "the accumulated dict is what is returned", "return results", short(p.exit[1]) if p.exit[0] == "return" else p.exit[0])
        if len(names) != 1:
            continue
        res = names[0]
        ph = l.phi[res]
        init = strip_ver(l.init.get(res) or NONE)
        ok = init[0] == "call" and key(init[1]) in ("target_json.copy", "dict", "copy.copy") and ("target_json" in key(init))
        ctx.check(ok, f, f.node, "accumulation starts from a copy of the entry", "target_json.copy()", short(init))
        hist = None
        for bp in l.paths:
            conds = [(strip_ver(c), pol) for c, pol, _ in bp.conds]
            if bp.exit[0] == "exit":
                ok = conds == [(("cmp", "in", ("const", "extends"), ph), False)]
                ctx.check(ok, f, l.node, "the chain ends exactly when the accumulated dict names no parent", "while 'extends' in results", bp.describe()[:120])
                continue
            parent = ("sub", ph, ("const", "extends"))
            alt = [c[2] for c, pol in conds if c[0] == "cmp" and c[1] == "in" and c[3] == ("sym", "whole_json")]
            popped_parent = False
            if alt and alt[0] != parent and alt[0][0] == "call" and alt[0][1] == ("attr", ph, "pop") and alt[0][2] == (("const", "extends"),):
                parent = alt[0]  # the name of the parent is taken with results.pop("extends")
                popped_parent = True
            has_parent = [pol for c, pol in conds if c == ("cmp", "in", parent, ("sym", "whole_json"))]
            cyc = [(c, pol) for c, pol in conds if c[0] == "cmp" and c[1] == "in" and c[2] == parent and c[3] != ("sym", "whole_json")]
            if bp.exit[0] == "raise":
                ok = (has_parent == [False]) or (has_parent == [True] and len(cyc) == 1 and cyc[0][1] is True)
                ctx.check(ok, f, l.node, "errors: the parent is missing, or it was already visited", "raise iff parent not in whole_json or parent in history", bp.describe()[:160])
                continue
            n += 1
            ok = has_parent == [True] and len(cyc) == 1 and cyc[0][1] is False
            ctx.check(ok, f, l.node, "a merge happens only after both error tests passed", "parent in whole_json and parent not in history", bp.describe()[:160])
            if cyc:
                hist = cyc[0][0][3]
                app = [e for e in calls(bp) if e.name in ("append", "add") and e.recv == hist and e.args and strip_ver(e.args[0]) == strip_ver(parent)]
                ctx.check(len(app) == 1, f, l.node, "every visited parent is recorded in the history used by the cycle test", "history.append(parent)", f"{len(app)} append(s)")
            pops = [e for e in calls(bp) if e.name == "pop" and strip_ver(e.recv) == strip_ver(ph) and e.args and e.args[0] == ("const", "extends")]
            dels = [e for e in bp.events if e.kind == "del" and e.base == ph and e.index == ("const", "extends")]
            ctx.check(len(pops) + len(dels) == 1, f, l.node, "the entry's own `extends` is consumed before merging (the parent's may take its place)", "results.pop('extends')", f"{len(pops) + len(dels)} removal(s)")
            v = strip_ver(bp.env.get(res) or NONE)
            ok = v[0] == "call" and key(v[1]) == "dict" and len(v[2]) == 1 and dict(v[3]).get("**") == ph
            if ok:
                from ..kit import seq_value
                from ..terms import canon_pred

                raw = (bp.env.get(res) or NONE)[2][0]
                comp = seq_value(bp, raw, outer=(p,))
                # dict(<pairs>, **r) and dict({k: v ...}, **r) build the same mapping
                ok = comp is not None and comp[0] == "comp" and comp[1] in ("seq", "dictcomp") and len(comp[3]) == 1
                if ok:
                    g = comp[3][0]
                    names_ = g[0]
                    ok = len(names_) == 2 and comp[2] == ("tuple", (("bound", names_[0]), ("bound", names_[1]))) and g[1] == ("call", ("attr", ("sub", ("sym", "whole_json"), strip_ver(parent)), "items"), (), (), None)
                    ok = ok and len(g[2]) == 1
                    if ok:
                        cc, cpol = canon_pred(g[2][0])
                        ok = cc[0] == "cmp" and cc[1] == "in" and cc[2] == ("bound", names_[0]) and cpol is False
                        if ok:
                            ex = cc[3]
                            while ex[0] == "call" and ex[1][0] == "name" and ex[1][1] in ("frozenset", "set", "tuple", "list") and len(ex[2]) == 1:
                                ex = ex[2][0]  # the same names, held in another container
                            if ex[0] == "bool" and ex[1] == "or" and len(ex[2]) == 2:
                                ex = ex[2][0]  # excludes_fields or []
                            lit = alloc_literal(p, ex)
                            raw_ex = None
                            for s_ in subterms(raw if raw[0] != "sym" else NONE):
                                pass
                            ok = key(ex) == "excludes_fields" or (lit is not None and len(lit[1]) == 0) or (ex[0] == "sym" and ex[1].startswith("new"))
            ctx.check(ok, f, l.node, "merge = parent's keys except the excluded ones, overridden by everything accumulated so far (nearest definition wins)", "results = dict([(k, v) for k, v in whole_json[parent].items() if k not in excludes], **results)", short(v)[:220])
        if hist is not None:
            lit = alloc_literal(p, hist)
            ok = lit is not None and [key(x) for x in lit[1]] == ["parent_name"]
            ctx.check(ok, f, f.node, "the history starts with the entry's own name (an entry extending itself is a cycle)", "[parent_name]", short(lit))
    ctx.require(n >= 1, f"{JE}: merging path not found")


def _group_loops(ctx: Ctx, q: str):
    f = ctx.func(q)
    for p in normal_paths(ctx.paths(q)):
        for l in loops(p):
            yield f, p, l
        break


@rule("C18.R2", "a group creates exactly as many entities as its count or inclusive id range says, numbered by one running counter, named prefix+index with the same count deciding the naming scheme; duplicate ids and names are rejected", "T7 count agreement + T3", floor=8)
def r2(ctx: Ctx) -> None:
    for q, ctor_kw, reg in (("SequentialRunner._generate_markets", "market_id", "Simulator._add_market"), ("SequentialRunner._generate_agents", "agent_id", "Simulator._add_agent")):
        n = 0
        for f, p, l in _group_loops(ctx, q):
            counters = [k for k, ph in l.phi.items() if any(bp.env.get(k) not in (None, ph) for bp in l.paths)]
            for bp in l.paths:
                if bp.exit[0] == "raise":
                    continue
                inner = [il for il in loops(bp) if il.iter is not None and strip_ver(il.iter)[0] == "call" and key(strip_ver(il.iter)[1]) == "range"]
                ctx.check(len(inner) == 1, f, l.node, "one creation loop per group", "for i in range(id_from, id_to + 1)", f"{len(inner)} loop(s)")
                if len(inner) != 1:
                    continue
                il = inner[0]
                ra = strip_ver(il.iter)[2]
                lo, hi = (("const", 0), ra[0]) if len(ra) == 1 else (ra[0], ra[1])
                iters = poly_of(("bin", "-", hi, lo))
                # which branch is this?
                branch = "count" if any(pol and "'num" in key(strip_ver(c)) for c, pol, _ in bp.conds) else ("range" if any(pol and key(strip_ver(c)).startswith("('from' in") for c, pol, _ in bp.conds) else "single")
                # the naming count: the term compared with 1 when the name is built / the prefix chosen
                ncount = set()
                for ip in il.paths:
                    for c, pol, _ in ip.conds:
                        c = strip_ver(c)
                        if c[0] == "cmp" and c[1] == "==" and ("const", 1) in (c[2], c[3]):
                            ncount.add(poly_of(c[3] if c[2] == ("const", 1) else c[2]))
                for c, pol, _ in bp.conds:
                    c = strip_ver(c)
                    if c[0] == "cmp" and c[1] == "<" and c[2] == ("const", 1):
                        ncount.add(poly_of(c[3]))
                n += 1
                ok = bool(ncount) and all(x == iters for x in ncount)
                if not ncount:
                    # the naming decisions were decided statically: the count is the literal 1
                    ok = iters == poly_of(("const", 1))
                ctx.check(ok, f, il.node, f"{q.split('.')[-1]} ({branch} branch): the count used for naming equals the number of entities created", f"naming count = id_to - id_from + 1 = {iters}", f"naming count(s): {sorted(ncount) or ['(constant)']}; iterations: {iters}", guard="text")
                if branch == "range":
                    want = poly_of(("bin", "+", ("bin", "-", ("sym", "TO"), ("sym", "FROM")), ("const", 1)))
                    got = iters
                    for a, b in (("'to'])", "TO"), ("'from'])", "FROM")):
                        pass
                    ok = any(x in key(hi) for x in ("['to']", ".pop('to')", ".get('to')")) and any(x in key(lo) for x in ("['from']", ".pop('from')", ".get('from')"))
                    ctx.check(ok, f, il.node, "an id range is inclusive of both ends", "range(int(from), int(to) + 1)", f"range({short(lo)[-40:]}, {short(hi)[-40:]})")
                # ids from the single running counter
                idx = ("sym", f"{il.target[0]}∈{il.loopid}")
                for ip in il.paths:
                    made = [e for e in calls(ip) if e.site.how == "ctor" and kw(e, ctor_kw) is not None]
                    ok = len(made) == 1
                    cname = None
                    if ok:
                        idt = kw(made[0], ctor_kw)
                        cn = [k for k, ph in il.phi.items() if ph == idt]
                        ok = len(cn) == 1 and ip.env.get(cn[0]) == ("bin", "+", idt, ("const", 1))
                        cname = cn[0] if cn else None
                    ctx.check(ok, f, il.node, "each entity takes the running id, which then grows by one", f"{ctor_kw}=counter; counter += 1", f"{len(made)} construction(s); counter={cname}")
                    if ok:
                        nm = strip_ver(kw(made[0], "name") or NONE)
                        one = [pol for c, pol, _ in ip.conds if strip_ver(c)[0] == "cmp" and strip_ver(c)[1] == "==" and ("const", 1) in (strip_ver(c)[2], strip_ver(c)[3])]
                        if one and not one[-1]:
                            okn = nm[0] == "bin" and nm[1] == "+" and nm[3] == ("call", ("name", "str"), (idx,), (), None)
                            ctx.check(okn, f, made[0].node, "members of a multi-entity group are named prefix + their index in the group's range", "name = prefix + str(i)", short(nm)[-80:])
                        regs = [e for e in calls(ip) if calls_target(e, reg)]
                        ctx.check(len(regs) == 1 and (kw(regs[0], "market", 0) or kw(regs[0], "agent", 0)) == made[0].term and key(kw(regs[0], "group_name", 1) or NONE) == f"{l.target[0]}∈{l.loopid}", f, il.node,
                                  "each created entity is registered once under its group", f"{reg.split('.')[-1]}(entity, group_name=name)", f"{len(regs)} registration(s)")
            # the counter starts at 0 and is never reset between groups
            id_counters = set()
            for bp in l.paths:
                for il in loops(bp):
                    for ip in il.paths:
                        for e in calls(ip):
                            if e.site.how == "ctor" and kw(e, ctor_kw) is not None:
                                for k_, ph_ in il.phi.items():
                                    if ph_ == kw(e, ctor_kw):
                                        id_counters.add(k_)
            for cn in sorted(id_counters & set(l.phi)):
                ctx.check(l.init.get(cn) == ("const", 0), f, l.node, "ids start at 0", "0", short(l.init.get(cn)))
                resets = [bp for bp in l.paths if bp.exit[0] != "raise" and bp.env.get(cn) is not None and not any(x[0] == "sym" and (x[1].startswith("ψ") or x == l.phi[cn]) for x in subterms(bp.env[cn]))]
                ctx.check(not resets, f, l.node, "the id counter carries over from group to group", "never re-initialised inside the group loop", f"{len(resets)} path(s) reset it")
        ctx.require(n >= 3, f"{q}: expected the count, range and single branches")
    check_registries(ctx)


def check_registries(ctx: Ctx) -> None:
    """registries reject duplicates before anything is stored"""
    for q, obj, tests in (("Simulator._add_market", "market", ["(market in self.markets)", "(market.market_id in self.id2market)", "(market.name in self.name2market)"]),
                          ("Simulator._add_agent", "agent", ["(agent in self.agents)", "(agent.agent_id in self.id2agent)", "(agent.name in self.name2agent)"]),
                          ("Simulator._add_session", "session", ["(session in self.sessions)", "(session.session_id in self.id2session)", "(session.name in self.name2session)"])):
        f = ctx.func(q)
        m = 0
        for p in ctx.paths(q):
            eff = [e for e in p.walk_events() if e.kind == "store" or (e.kind == "call" and e.data.get("mutates") is not None)]
            if not eff:
                continue
            m += 1
            # ... and it is filed under its own id and its own name
            idattr = f"{obj}_id"
            sts = [e for e in p.walk_events() if e.kind == "store" and e.attr is None]
            want_id = any(key(strip_ver(e.base)) == f"self.id2{obj}" and key(strip_ver(e.index)) == f"{obj}.{idattr}" and key(strip_ver(e.value)) == obj for e in sts)
            want_nm = any(key(strip_ver(e.base)) == f"self.name2{obj}" and key(strip_ver(e.index)) == f"{obj}.name" and key(strip_ver(e.value)) == obj for e in sts)
            if not (want_id and want_nm):
                # filed through another table keyed by the object's own id / name (an index next to a list): indirect, not decided
                ind_id = want_id or any(key(strip_ver(e.index)) == f"{obj}.{idattr}" for e in sts)
                ind_nm = want_nm or any(key(strip_ver(e.index)) == f"{obj}.name" for e in sts)
                if ind_id and ind_nm:
                    ctx.unrec(f, f.node, f"{q}: the object is filed under its own id and its own name", "the id or the name leads to the object through another table: how look-ups resolve it is not decided")
                    continue
            ctx.check(want_id and want_nm, f, f.node, f"{q}: the object is filed under its own id and its own name", f"self.id2{obj}[{obj}.{idattr}] = {obj}; self.name2{obj}[{obj}.name] = {obj}",
                      "; ".join(f"{short(e.base)}[{short(e.index)}] = {short(e.value)}" for e in sts)[:200] or "no keyed store")
            # ... and in the group table under the name of its own group only (agents list group names to say which markets they see)
            gtab = f"self.{obj}s_group_name2{obj}"
            if obj in ("market", "agent") and not getattr(ctx, f"_c18_group_{obj}", False):
                gkeys = []
                for e in p.walk_events():
                    if e.kind == "call" and e.name in ("append", "extend", "insert") and e.recv is not None and strip_ver(e.recv)[0] == "sub" and key(strip_ver(e.recv)[1]) == gtab:
                        gkeys.append(strip_ver(e.recv)[2])
                    if e.kind == "call" and e.name == "setdefault" and e.recv is not None and key(strip_ver(e.recv)) == gtab and e.args:
                        gkeys.append(strip_ver(e.args[0]))
                other = [k_ for k_ in gkeys if key(k_) != "group_name"]
                if other:
                    setattr(ctx, f"_c18_group_{obj}", True)
                    ctx.violated(f, f.node, f"{q}: the {obj} is listed in the group table under its own group's name only", f"{gtab}[group_name].append({obj})", f"also listed under {', '.join(sorted({short(k_) for k_ in other}))[:120]}: whoever names that entry now reaches this {obj} as well", guard="text", guard_text=__import__("ast").unparse(f.node))
            got = {key(strip_ver(c)): pol for c, pol, _ in p.conds}
            missing = [t for t in tests if got.get(t) is not False]
            if missing:
                # the scan form: a loop over the registry that raises on a match with a registered entity
                fields = {tests[0]: "", tests[1]: "." + tests[1].split(".", 1)[1].split(" ")[0], tests[2]: ".name"}
                scans: Dict[str, str] = {}
                for l in loops(p):
                    if not any(key(x) in (f"self.{obj}s", f"self.id2{obj}", f"self.name2{obj}") for x in subterms(strip_ver(l.iter))):
                        continue
                    for bp in l.paths:
                        if bp.exit[0] != "raise" or not bp.conds:
                            continue
                        c, pol, _ = bp.conds[-1]
                        c = strip_ver(c)
                        if c[0] != "cmp" or not pol:
                            continue
                        sides = sorted(key(strip_ver(x)) for x in (c[2], c[3]))
                        for t, fld in fields.items():
                            mine = obj + fld
                            if mine in sides and any(x != mine and x.endswith(fld or "") and "∈" in x for x in sides):
                                other = [x for x in sides if x != mine][0]
                                if fld == "" and "." in other.split("∈")[-1]:
                                    continue
                                scans[t] = c[1]
                still = [t for t in missing if t not in scans]
                # the value is tested, but against another table
                wrong = []
                for t in still:
                    lhs = t[1:].split(" in ")[0]
                    for k_, pol_ in got.items():
                        if k_.startswith("(" + lhs + " in ") and k_ != t and pol_ is False and k_ not in tests:
                            wrong.append(f"{lhs} is looked up in {k_.split(' in ')[1][:-1]}")
                    dup = [k_ for k_ in tests if k_ != t and k_.startswith("(" + lhs + " in ")]
                if wrong:
                    ctx.violated(f, f.node, f"{q}: object, id and name must all be new before anything is stored", "each of the three looked up in its own table", "; ".join(wrong))
                    continue
                bad = [t for t in missing if t in scans and scans[t] == "is" and t != tests[0]]
                if bad:
                    ctx.violated(f, f.node, f"{q}: object, id and name must all be new before anything is stored", "ids and names compared by value", f"compared by identity (`is`): {bad}; equal names or ids held in distinct objects pass as new")
                    continue
                if still and (p.conds or loops(p)):
                    ctx.unrec(f, f.node, f"{q}: object, id and name must all be new before anything is stored", f"no membership test and no scan of the registry recognised for {still}")
                    continue
                if still:
                    ctx.violated(f, f.node, f"{q}: object, id and name must all be new before anything is stored", "three membership tests decided false", f"stored without any test for {still}")
                    continue
            ctx.holds(f, f.node, f"{q}: object, id and name must all be new before anything is stored", "three membership tests decided false")
        ctx.require(m >= 1, f"{q}: registering path not found")


@rule("C18.R3", "an agent can access exactly the markets of the groups it lists", "T10 provenance", floor=2)
def r3(ctx: Ctx) -> None:
    q = "SequentialRunner._generate_agents"
    n = 0
    for f, p, l in _group_loops(ctx, q):
        for bp in l.paths:
            if bp.exit[0] == "raise":
                continue
            for il in loops(bp):
                for ip in il.paths:
                    for e in calls(ip):
                        if e.name == "append" and e.args and e.args[0][0] == "tuple" and len(e.args[0][1]) == 2:
                            lit = alloc_literal(ip, e.args[0][1][1]) or alloc_literal(bp, e.args[0][1][1])
                            if lit is None or lit[0] != "dict":
                                continue
                            d = {k[1]: v for k, v in lit[1] if k is not None and k[0] == "const"}
                            if "accessible_markets_ids" not in d:
                                continue
                            n += 1
                            from ..kit import seq_value

                            v = seq_value(ip, d["accessible_markets_ids"], outer=(bp, p))
                            raw = strip_ver(d["accessible_markets_ids"])
                            if raw[0] == "call" and key(raw[1]) == "list" and len(raw[2]) == 1 and strip_ver(raw[2][0])[0] == "call" and key(strip_ver(raw[2][0])[1]) == "dict.fromkeys":
                                ctx.unrec(f, e.node, "accessible ids = ids of all markets of all listed groups", "the list is passed through dict.fromkeys (duplicates removed, order kept): it differs from the list of all ids only where a market is reached twice; whether that can happen, and what should happen then, is not decided", short(raw)[:160])
                                continue
                            ok = v is not None and v[0] == "comp" and v[1] == "seq" and len(v[3]) == 2
                            if ok:
                                (g1n, g1s, g1c), (g2n, g2s, g2c) = v[3]
                                ok = (not g1c and not g2c and len(g1n) == 1 and len(g2n) == 1 and key(g1s).endswith("['markets']")
                                      and g2s == ("sub", ("attr", ("attr", ("sym", "self"), "simulator"), "markets_group_name2market"), ("bound", g1n[0]))
                                      and v[2] == ("attr", ("bound", g2n[0]), "market_id"))
                            if v is None:
                                v = strip_ver(d["accessible_markets_ids"])
                            ctx.check(ok, f, e.node, "accessible ids = ids of all markets of all listed groups", "sum([[m.market_id for m in group2markets[g]] for g in settings['markets']], [])", short(v)[:200])
    ctx.require(n >= 1, f"{q}: deferred agent setup not found")
    g = ctx.func("Agent.setup")
    for p in normal_paths(ctx.paths(g.qualname)):
        lp = [l for l in loops(p) if key(strip_ver(l.iter)) == "accessible_markets_ids"]
        ok = len(lp) == 1
        if ok:
            el = ("sym", f"{lp[0].target[0]}∈{lp[0].loopid}")
            for bp in lp[0].paths:
                cs = [e for e in calls(bp) if e.name == "set_market_accessible"]
                if bp.exit[0] != "raise" and not (len(cs) == 1 and kw(cs[0], "market_id", 0) == el and not bp.conds):
                    ok = False
        ctx.check(ok, g, g.node, "every listed market id, and nothing else, is made accessible", "for id in accessible_markets_ids: self.set_market_accessible(id)", f"{len(lp)} loop(s)")
        break
    others = [s for s in ctx.cg.sites_calling("Agent.set_market_accessible") if s.caller.qualname != "Agent.setup"]
    ctx.check(not others, g, others[0].node if others else g.node, "nothing else grants market access", "only Agent.setup", ", ".join(s.caller.qualname for s in others) or "none")


@rule("C18.R4", "randomised values: a pair means uniform; a single-key dict selects const / uniform / normal / expon with its arguments in order; anything else is an error; the uniform draw is affine in U", "T9 dispatch table", floor=6)
def r4(ctx: Ctx) -> None:
    f = ctx.func("JsonRandom.random")
    seen = set()
    for p in ctx.paths(f.qualname, auto_inline_trivial=False):
        if p.exit[0] != "return":
            continue
        ck = {key(strip_ver(c)): pol for c, pol, _ in p.conds}
        r = strip_ver(p.exit[1])
        # a path that consults state kept outside the call (a memo of parsed specifications, ...) is not of the modelled shape
        kept = [x for t_ in [r] + [strip_ver(c) for c, _, _ in p.conds] for x in subterms(t_) if (x[0] == "name" and x[1].split(".")[-1].isupper()) or (x[0] == "call" and key(x[1]) == "id")]
        if kept:
            ctx.unrec(f, f.node, "dispatch on the documented forms of a random specification", "the path consults state kept between calls (a memo): whether a kept entry still describes the specification at hand is not decided", short(kept[0])[:80])
            seen.add("memo")
            continue
        is_list = ck.get("isinstance(json_value, list)")
        is_dict = ck.get("isinstance(json_value, dict)")
        if is_list:
            seen.add("list")
            ok = ck.get("(2 == len(json_value))") is True and r[0] == "call" and key(r[1]) == "self._next_uniform" and dict(r[3]) == {"min_value": _fl("json_value", 0), "max_value": _fl("json_value", 1)}
            ctx.check(ok, f, f.node, "[a, b] -> uniform(a, b)", "len == 2; self._next_uniform(min_value=float(v[0]), max_value=float(v[1]))", short(r), guard="text", guard_text=__import__("ast").unparse(f.node))
        elif is_dict:
            ok1 = ck.get("(1 == len(json_value))") is True
            kind = [k for k in ("const", "uniform", "normal", "expon") if ck.get(f"('{k}' in json_value)")]
            ctx.check(ok1 and len(kind) == 1, f, f.node, "a distribution dict has exactly one key, one of const/uniform/normal/expon", "len == 1 and known key", f"len-test={ck.get('(1 == len(json_value))')} keys={kind}")
            if len(kind) != 1:
                continue
            k = kind[0]
            seen.add(k)
            arr = f"json_value['{k}']"
            lens = {"const": 1, "uniform": 2, "normal": 2, "expon": 1}[k]
            ok = ck.get(f"isinstance({arr}, list)") is True and ck.get(f"({lens} == len({arr}))") is True
            if k == "const":
                ok = ok and r == _fl(arr, 0)
            elif k == "uniform":
                ok = ok and r[0] == "call" and key(r[1]) == "self._next_uniform" and dict(r[3]) == {"min_value": _fl(arr, 0), "max_value": _fl(arr, 1)}
            elif k == "normal":
                ok = ok and r[0] == "call" and key(r[1]) == "self._next_normal" and dict(r[3]) == {"mu": _fl(arr, 0), "sigma": _fl(arr, 1)}
            else:
                ok = ok and r[0] == "call" and key(r[1]) == "self._next_exponential" and dict(r[3]) == {"lam": _fl(arr, 0)}
            ctx.check(ok, f, f.node, f"{{'{k}': [...]}} -> its generator with {lens} argument(s) in order", f"list of {lens}; arguments float(args[i]) in order", short(r), guard="text", guard_text=__import__("ast").unparse(f.node))
        else:
            seen.add("scalar")
            ctx.check(r == ("call", ("name", "float"), (("sym", "json_value"),), (), None), f, f.node, "a plain number is returned as is", "float(json_value)", short(r))
    if "memo" in seen:
        seen |= {"list", "const", "uniform", "normal", "expon", "scalar"}  # the memo paths were refused above; which forms they serve is not decided
        seen.discard("memo")
    ctx.check(seen == {"list", "const", "uniform", "normal", "expon", "scalar"}, f, f.node, "all documented forms are dispatched", "list, const, uniform, normal, expon, scalar", str(sorted(seen)))
    # unknown key -> error
    unknown = [p for p in ctx.paths(f.qualname, auto_inline_trivial=False) if p.exit[0] == "raise" and all(not pol for c, pol, _ in p.conds if key(strip_ver(c)).endswith("in json_value)"))
               and {key(strip_ver(c)) for c, pol, _ in p.conds} >= {f"('{k}' in json_value)" for k in ("const", "uniform", "normal", "expon")}]
    ctx.check(bool(unknown), f, f.node, "an unknown distribution name is rejected", "raise ValueError", f"{len(unknown)} rejecting path(s)")
    g = ctx.func("JsonRandom._next_uniform")
    for p in ctx.paths(g.qualname):
        r = strip_ver(p.exit[1]) if p.exit[0] == "return" else NONE
        us = [s for s in subterms(r) if s[0] == "call" and key(s[1]) == "self.prng.random"]
        ok = len(us) >= 1
        if ok:
            from ..terms import map_children

            def sub(t: Term) -> Term:
                if t[0] == "call" and key(t[1]) == "self.prng.random":
                    return ("sym", "U")
                return map_children(t, sub)
            ok = poly_of(sub(r)) == poly_of(("bin", "+", ("bin", "*", ("sym", "U"), ("bin", "-", ("sym", "max_value"), ("sym", "min_value"))), ("sym", "min_value")))
        ctx.check(ok, g, g.node, "uniform(min, max) = min + U (max - min), U from the instance generator", "self.prng.random() * (max - min) + min", short(r))
    for q, want in (("JsonRandom._next_normal", "self.prng.gauss"), ("JsonRandom._next_exponential", "self.prng.random")):
        g = ctx.func(q)
        for p in ctx.paths(q):
            r = strip_ver(p.exit[1]) if p.exit[0] == "return" else NONE
            us = [s for s in subterms(r) if s[0] == "call" and key(s[1]) == want]
            ok = len(us) == 1
            if ok and q.endswith("normal"):
                ok = dict(us[0][3]) == {"mu": ("sym", "mu"), "sigma": ("sym", "sigma")} and r == us[0]
            if ok and q.endswith("exponential"):
                ok = r == ("bin", "*", ("sym", "lam"), ("un", "-", ("call", ("name", "math.log"), (us[0],), (), None)))
            ctx.check(ok, g, g.node, f"{q}: draw from the instance generator with its own parameters", "gauss(mu, sigma) | lam * -log(U)", short(r))


def _fl(arr: str, i: int) -> Term:
    base: Term = ("sym", "json_value") if arr == "json_value" else ("sub", ("sym", "json_value"), ("const", arr.split("'")[1]))
    return ("call", ("name", "float"), (("sub", base, ("const", i)),), (), None)


@rule("C18.R5", "deprecated session keys set the same parameter as their replacement; giving both is an error", "T8 sibling agreement", floor=2)
def r5(ctx: Ctx) -> None:
    f = ctx.func("Session.setup")
    pairs = (("maxHighFrequencyOrders", "maxHifreqOrders"), ("highFrequencySubmitRate", "hifreqSubmitRate"))
    paths = ctx.paths(f.qualname)
    for new, old in pairs:
        tgt_new, tgt_old, both_raise, both_ok = set(), set(), 0, 0
        for p in paths:
            ck = {key(strip_ver(c)): pol for c, pol, _ in p.conds}
            hn, ho = ck.get(f"('{new}' in settings)"), ck.get(f"('{old}' in settings)")
            if hn and ho:
                if p.exit[0] == "raise":
                    both_raise += 1
                else:
                    both_ok += 1
            if p.exit[0] == "raise":
                continue
            for e in stores(p):
                v = key(strip_ver(e.value))
                if v == f"settings['{new}']":
                    tgt_new.add(e.attr)
                if v == f"settings['{old}']":
                    tgt_old.add(e.attr)
        # a key's value is taken exactly when the key is present (presence, not truthiness, decides)
        for k_ in (new, old):
            badp = []
            for p in paths:
                if p.exit[0] == "raise":
                    continue
                ck = {key(strip_ver(c)): pol for c, pol, _ in p.conds}
                uses = any(key(strip_ver(e.value)) == f"settings['{k_}']" for e in stores(p))
                present = ck.get(f"('{k_}' in settings)")
                if uses and present is not True:
                    badp.append("value used without a presence test")
                if present is True and not uses and k_ == old and ck.get(f"('{new}' in settings)") is False:
                    badp.append("key present but ignored")
            ctx.check(not badp, f, f.node, f"session key {k_} is honoured exactly when it is present", f"'{k_}' in settings decides", "; ".join(sorted(set(badp))) or "presence test")
        ok = len(tgt_new) == 1 and tgt_old == tgt_new
        ctx.check(ok, f, f.node, f"legacy key {old} sets the same parameter as {new}", f"both assign self.{next(iter(tgt_new)) if tgt_new else '?'}", f"{new} -> {sorted(tgt_new)}; {old} -> {sorted(tgt_old)}")
        ctx.check(both_raise >= 1 and both_ok == 0, f, f.node, f"{new} together with {old} is rejected", "raise ValueError", f"{both_raise} rejecting / {both_ok} accepting path(s)")
    # required keys map to their own attribute
    want = {"iteration_steps": "iterationSteps", "with_order_placement": "withOrderPlacement", "with_order_execution": "withOrderExecution", "with_print": "withPrint", "max_normal_orders": "maxNormalOrders"}
    got: Dict[str, set] = {a: set() for a in want}
    for p in paths:
        if p.exit[0] == "raise":
            continue
        for e in stores(p):
            if e.attr in want:
                for s in subterms(strip_ver(e.value)):
                    if s[0] == "sub" and s[1] == ("sym", "settings") and s[2][0] == "const":
                        got[e.attr].add(s[2][1])
                    if s[0] == "call" and s[1] == ("attr", ("sym", "settings"), "get") and s[2] and s[2][0][0] == "const":
                        got[e.attr].add(s[2][0][1])
    ctx.check(all(got[a] == {k} for a, k in want.items()), f, f.node, "each session parameter is read from its own key", str(want), str({a: sorted(v) for a, v in got.items()}))


@rule("C18.R6", "class names resolve over pams' namespaces plus the registered classes, and anything but exactly one match is an error", "T4", floor=2)
def r6(ctx: Ctx) -> None:
    # registered user classes are only ever added: a later registration never removes or replaces an earlier one
    # (two classes of one name must stay two candidates, so that the name is reported as ambiguous)
    nw = 0
    for w in ctx.cg.writers_of("Runner", "registered_classes"):
        nw += 1
        ok = (w.func.name == "__init__" and w.kind == "store") or (w.func.name == "class_register" and w.kind == "mutcall" and w.detail == "append")
        ctx.check(ok, w.func, w.node, "registered classes are only added (class_register appends)", "Runner.__init__ creates the list; class_register appends", f"{w.func.qualname}: {w.kind} {w.detail}")
    ctx.require(nw >= 2, "writers of Runner.registered_classes not found")
    f = ctx.func(FC)
    n = 0
    for p in ctx.paths(FC):
        conds = [(strip_ver(c), pol) for c, pol, _ in p.conds]
        cnt = [(c, pol) for c, pol in conds if c[0] == "cmp" and c[1] == "==" and c[2] == ("const", 1) and c[3][0] == "call" and key(c[3][1]) == "len"]
        ctx.check(len(cnt) == 1, f, f.node, "the number of candidates is compared with one", "len(candidates) != 1 -> raise", f"{len(cnt)} test(s)")
        if len(cnt) != 1:
            continue
        n += 1
        cand = cnt[0][0][3][2][0]
        ctx.check((p.exit[0] == "raise") == (not cnt[0][1]), f, f.node, "exactly one candidate -> return it; otherwise raise", "raise iff count != 1", p.exit[0])
        if p.exit[0] == "return":
            r = strip_ver(p.exit[1])
            ctx.check(r[0] == "sub" and r[1] == cand and r[2] == ("const", 0), f, f.node, "the single candidate is returned", "candidates[0]", short(r)[:80])
        ok = cand[0] == "comp" and cand[2] == ("call", ("name", "getattr"), (("bound", cand[3][0][0][0]), ("sym", "name")), (), None) and len(cand[3][0][2]) == 1 and cand[3][0][2][0] == ("call", ("name", "hasattr"), (("bound", cand[3][0][0][0]), ("sym", "name")), (), None)
        ctx.check(ok, f, f.node, "candidates are the attributes called `name` of the searched namespaces", "[getattr(m, name) for m in spaces if hasattr(m, name)]", short(cand)[:120])
        imps = sorted(e.args[0][1] for e in calls(p) if e.name == "__import__" and e.args and e.args[0][0] == "const")
        ctx.check(imps == ["pams", "pams.agents", "pams.events", "pams.logs", "pams.utils"], f, f.node, "searched namespaces", "pams, pams.agents, pams.events, pams.logs, pams.utils", str(imps))
        has_opt = [pol for c, pol in conds if key(c) == "(optional_class_list is None)"]
        ext = [e for e in calls(p) if e.name == "extend" and strip_ver(e.recv) == cand]
        if has_opt and not has_opt[0]:
            ok = len(ext) == 1 and strip_ver(ext[0].args[0])[0] == "comp" and key(strip_ver(ext[0].args[0])[3][0][1]) == "optional_class_list"
            if ok:
                from ..terms import canon_pred

                cmp_ = strip_ver(ext[0].args[0])
                bn = cmp_[3][0][0][0]
                cc, cp = canon_pred(cmp_[3][0][2][0]) if len(cmp_[3][0][2]) == 1 else (NONE, True)
                ok = cp and cc[0] == "cmp" and cc[1] == "==" and {key(cc[2]), key(cc[3])} == {f"{bn}.__name__", "name"} and cmp_[2] == ("bound", bn)
            ctx.check(ok, f, f.node, "registered classes with that name are candidates too", "candidates.extend([x for x in optional_class_list if x.__name__ == name])", f"{len(ext)} extension(s)")
        else:
            ctx.check(not ext, f, f.node, "no registered classes -> nothing added", "no extension", str(len(ext)))
    ctx.require(n >= 4, f"{FC}: paths not found")
    g = ctx.func("Runner.class_register")
    for p in normal_paths(ctx.paths(g.qualname)):
        ap = [e for e in calls(p) if e.name == "append" and key(strip_ver(e.recv)) == "self.registered_classes" and key(e.args[0]) == "cls"]
        ctx.check(len(ap) == 1, g, g.node, "class_register records the class", "self.registered_classes.append(cls)", str(len(ap)))
    for s in ctx.cg.sites_calling(FC):
        a = None
        for k in s.node.keywords:
            if k.arg == "optional_class_list":
                a = k.value
        import ast as _ast

        ctx.check(a is not None and _ast.unparse(a) == "self.registered_classes", s.caller, s.node, "every class lookup of the runner includes the registered classes", "optional_class_list=self.registered_classes", _ast.unparse(a) if a is not None else "missing")


def _rooted_at_config(t: Term) -> bool:
    """t is a pure access path (subscripts / attributes) into the runner's settings"""
    t = strip_ver(t)
    while t[0] in ("sub", "attr"):
        if t == ("attr", ("sym", "self"), "settings"):
            return True
        t = t[1]
    return t in (("sym", "whole_json"), ("sym", "target_json"))


def _kept_on_runner(path: Path, b: Term):
    """the mutated copy `b` (or the object it is an access path into) is also stored under an attribute of the runner on this path"""
    roots = {strip_ver(b)}
    t = strip_ver(b)
    while t[0] in ("sub", "attr"):
        t = strip_ver(t[1])
        roots.add(t)
    for s in path.walk_events(True):
        if s.kind != "store" or s.value is None or strip_ver(s.value) not in roots:
            continue
        tgt = strip_ver(s.base) if s.base is not None else None
        if s.attr is not None and tgt == ("sym", "self"):
            return s.attr, s.node
        while tgt is not None and tgt[0] in ("sub", "attr"):
            if tgt[0] == "attr" and strip_ver(tgt[1]) == ("sym", "self"):
                return tgt[2], s.node
            tgt = strip_ver(tgt[1])
    return None


def _read_as_parents(ctx: Ctx, funcs, attr: str) -> bool:
    """self.<attr> occurs inside the `whole_json` argument of a json_extends call"""
    import ast as _a
    for g in funcs:
        for c in _a.walk(g.node):
            if isinstance(c, _a.Call) and (_a.unparse(c.func).endswith("json_extends")):
                wj = next((k.value for k in c.keywords if k.arg == "whole_json"), c.args[0] if c.args else None)
                if wj is not None and any(isinstance(x, _a.Attribute) and x.attr == attr and isinstance(x.value, _a.Name) and x.value.id == "self" for x in _a.walk(wj)):
                    return True
    return False


@rule("C18.R7", "the configuration is read-only: groups are expanded on copies, so what one group consumes (count, range, prefix) is still there for the groups that extend it", "T1 who-may-write (alias form): no in-place change through an access path into the settings", floor=4)
def r7(ctx: Ctx) -> None:
    from .events import MUTATORS

    n = 0
    funcs = [f for f in ctx.program.all_functions() if f.outer is None and (f.module.name.startswith("pams.runners") or f.qualname == JE)]
    for f in funcs:
        for p in ctx.paths(f.qualname):
            for e in p.walk_events(True):
                base = None
                if e.kind in ("store", "del") and e.attr is None and e.base is not None:
                    base = e.base
                elif e.kind == "call" and e.recv is not None and e.name in MUTATORS and e.site.how in ("external", "unknown"):
                    base = e.recv
                if base is None:
                    continue
                b = strip_ver(base)
                if _rooted_at_config(b):
                    ctx.violated(f, e.node, "settings are never changed in place (a parent group read later must still carry its count / range / prefix)", "changes go to the copy returned by json_extends", f"{short(b)} is the configuration itself, not a copy")
                elif any(s[0] == "call" and (key(s[1]).endswith("json_extends") or (s[1][0] == "attr" and s[1][2] == "copy")) for s in subterms(b)) or (b[0] == "sym" and (b[1].startswith("new") or "ψ" in b[1] or "φ" in b[1])):
                    if any(s[0] == "call" and (key(s[1]).endswith("json_extends") or (s[1][0] == "attr" and s[1][2] == "copy")) for s in subterms(b)):
                        # the copy must be private to this group: a copy that was also filed on the runner and is
                        # looked up as a parent by later expansions is configuration again (seed C18t)
                        kept = _kept_on_runner(p, b)
                        if kept is not None:
                            n += 1
                            attr, node = kept
                            if _read_as_parents(ctx, funcs, attr):
                                ctx.violated(f, e.node, "settings are never changed in place (a parent group read later must still carry its count / range / prefix)", "changes go to a private copy returned by json_extends",
                                             f"the expanded copy is also kept as self.{attr}[...] and self.{attr} is among the entries json_extends looks parents up in: what is deleted here is missing for every later group that extends this one")
                            else:
                                ctx.unrec(f, node, "expanded group settings stay private to the loop pass that consumes them", "the copy is not kept anywhere", f"the copy is kept on self.{attr} and changed afterwards; how self.{attr} is read is not modelled")
                            continue
                        n += 1
                        ctx.holds(f, e.node, "in-place change of a group's settings happens on a copy", "copy returned by json_extends / .copy()", short(b)[:120])
    ctx.require(n >= 4, "in-place changes of expanded group settings not found (8 confirmed by reading)")


def _terms_of_events(path: Path, into_loops: bool = False):
    for e in path.walk_events(into_loops):
        if e.kind == "call":
            if e.recv is not None:
                yield e, e.recv
            for a in e.args:
                yield e, a
            for _, v in e.kwargs:
                yield e, v
        elif e.kind == "store":
            yield e, e.value
            if e.index is not None and isinstance(e.index, tuple):
                yield e, e.index
        elif e.kind == "loop" and e.iter is not None:
            yield e, e.iter


def _additive(name: str, l: Event) -> bool:
    """every iteration leaves `name` at its entry value plus something (a counter / running offset),
    possibly through an inner loop that does the same"""
    ph = l.phi.get(name)
    for bp in l.paths:
        if bp.exit[0] == "raise":
            continue
        v = bp.env.get(name)
        if v is None or v == ph or (v[0] == "bin" and v[1] == "+" and ph in (v[2], v[3])):
            continue
        inner = [il for il in loops(bp) if il.out.get(name) == v]
        if inner and inner[0].init.get(name) is not None and (inner[0].init[name] == ph or (inner[0].init[name][0] == "bin" and inner[0].init[name][1] == "+" and ph in inner[0].init[name][2:])) and _additive(name, inner[0]):
            continue
        return False
    return True


def _uses_of(ph: Term, l: Event):
    """events of the loop body (and of inner loops entered with the same value) that consume ph"""
    for bp in l.paths:
        if bp.exit[0] == "raise":
            continue
        for e, t in _terms_of_events(bp):
            if ph in list(subterms(t)):
                yield bp, e
        for il in loops(bp):
            yield from _uses_of(ph, il)  # visible unchanged inside the inner loop
            for n2, v2 in (il.init or {}).items():
                if v2 == ph and n2 in il.phi:
                    yield from _uses_of(il.phi[n2], il)


def check_no_carry_over(ctx: Ctx) -> int:
    """in the loops that expand groups, sessions and events, nothing but running counters survives from
    one iteration to the next: a per-group value (default or configured) that is set on some paths
    only must not reach a call or store through the paths that leave it unset"""
    n = 0
    for q in ("SequentialRunner._generate_markets", "SequentialRunner._generate_agents", "SequentialRunner._generate_sessions"):
        f = ctx.func(q)
        for p in normal_paths(ctx.paths(q)):
            for l in loops(p):
                n += 1
                for name, ph in l.phi.items():
                    if _additive(name, l):
                        continue  # a running counter / accumulated offset
                    vals = [bp.env.get(name) for bp in l.paths if bp.exit[0] != "raise"]
                    per_iter = [v for v in vals if v is not None and v != ph and ph not in list(subterms(v))]
                    if not per_iter:
                        continue
                    used = list(_uses_of(ph, l))
                    if used:
                        bp, e = used[0]
                        ctx.violated(f, e.node, f"{q}: `{name}` is a per-iteration value; what an earlier iteration left in it never reaches a later one", f"`{name}` is (re)set in every iteration before it is used",
                                     f"on [{bp.describe()[:100]}] the value left by the previous iteration flows into {short(e.term) if e.kind == 'call' else (short(e.target) if e.kind == 'store' else 'a loop')}"[:300])
                    else:
                        ctx.holds(f, l.node, f"{q}: `{name}` is a per-iteration value set before use", "set in every iteration before it is used", "never read before it is set")
                # a container made before the loop, changed in place in an iteration and read in the same
                # iteration carries the earlier iterations' entries with it
                lid_tag = f"∈{l.loopid}"
                for bp in l.paths:
                    if bp.exit[0] == "raise":
                        continue
                    local_allocs = {e.data.get("sym") for e in bp.walk_events(True) if e.kind == "note" and e.data.get("what") == "alloc"}
                    muts = []
                    for e in bp.walk_events(True):
                        t = None
                        if e.kind == "call" and e.data.get("mutates") is not None:
                            t = e.data["mutates"]
                        elif e.kind == "store" and e.attr is None and e.base is not None:
                            t = e.base
                        if t is None or t in local_allocs:
                            continue
                        ts = strip_ver(t)
                        if any(s_[0] == "sym" and (lid_tag in s_[1] or s_[1].startswith("φ") or s_[1].startswith("ψ")) for s_ in subterms(ts)):
                            continue  # belongs to this iteration (or is carried explicitly: handled above)
                        root = ts
                        while root[0] in ("attr", "sub") and root != ("attr", ("sym", "self"), "settings"):
                            root = root[1]
                        if root == ("sym", "self") or ts[0] == "attr":
                            continue  # registries of the runner / simulator are meant to accumulate
                        muts.append((e, ts))
                    for me, ts in muts:
                        readers = [e for e, t in _terms_of_events(bp, True) if e is not me and ts in [strip_ver(x) for x in subterms(t)] and not (e.kind == "call" and e.data.get("mutates") is not None and strip_ver(e.data["mutates"]) == ts)]
                        def only_elements(t_: Term) -> bool:
                            """ts occurs in t_ only as the base of a subscript (one element is read, not the collection)"""
                            t_ = strip_ver(t_)
                            if t_ == ts:
                                return False
                            if t_[0] == "sub" and strip_ver(t_[1]) == ts:
                                return all(only_elements(x) for x in t_[2:] if isinstance(x, tuple))
                            return all(only_elements(x) for x in t_[1:] if isinstance(x, tuple) and x and isinstance(x[0], str)) and all(only_elements(y) for x in t_[1:] if isinstance(x, tuple) and x and not isinstance(x[0], str) for y in x if isinstance(y, tuple) and y and isinstance(y[0], str))
                        if readers and all(only_elements(t) for e, t in _terms_of_events(bp, True) if e in readers):
                            ctx.unrec(f, me.node, f"{q}: what one iteration puts into a container made before the loop is not read by the next", f"{short(ts)[:60]} grows in every iteration and single elements of it are read (a running table): which element an iteration reads is not decided")
                            continue
                        if readers:
                            ctx.violated(f, me.node, f"{q}: what one iteration puts into a container made before the loop is not read by the next", "a fresh container per iteration (or no in-place change)", f"{short(ts)[:80]} is changed in place and then read by {short(readers[0].term)[:80] if readers[0].kind == 'call' else 'a store'}: entries of earlier iterations stay in it")
            break
    return n


@rule("C18.R8", "group expansion keeps groups apart: defaults and configured values of one group never leak into the next", "T12 loop-carried dataflow", floor=3)
def r8(ctx: Ctx) -> None:
    n = check_no_carry_over(ctx)
    ctx.require(n >= 3, "expansion loops not found")


@rule("C18.R9", "the configuration a runner works on is the file's content, entry for entry: json is loaded without hooks that drop or rewrite entries", "T13 lint on every json.load / json.loads in pams", floor=1)
def r9(ctx: Ctx) -> None:
    import ast as _ast

    n = 0
    for mi in ctx.program.modules.values():
        for node in _ast.walk(mi.tree):
            if not (isinstance(node, _ast.Call) and isinstance(node.func, _ast.Attribute) and node.func.attr in ("load", "loads") and isinstance(node.func.value, _ast.Name) and mi.imports.get(node.func.value.id, node.func.value.id) == "json"):
                continue
            n += 1
            hooks = [k.arg for k in node.keywords if k.arg in ("object_hook", "object_pairs_hook", "parse_float", "parse_int", "parse_constant", "cls")]
            f = None
            for g in ctx.program.all_functions():
                if g.module is mi and g.node.lineno <= node.lineno <= (g.node.end_lineno or node.lineno):
                    f = g if f is None or g.node.lineno >= f.node.lineno else f
            ctx.check(not hooks, f, node, "json is read as it is", "json.load(fp) without object_hook / parse_* arguments", ("hooks: " + ", ".join(hooks)) if hooks else "plain load")
    ctx.require(n >= 1, "no json.load in pams (the runner is expected to read its configuration with it)")


@rule("C18.R10", "a configured number is used as configured, 0 included: no setup() falls back to a default through the truth value of what it read", "T13 lint over every setup(settings) in pams", floor=1)
def r10(ctx: Ctx) -> None:
    from .events import check_or_defaults

    check_or_defaults(ctx, None, floor=8)
