#!/usr/bin/env python3
"""Record the name table of the tree the rules were confirmed on (pamsa/reference_names.json).

Run on the clean /repo tree after a deliberate change of the rules' anchors; the table only lets
pamsa.renames recognise a later pure rename of a private method or attribute, it is never a
source of verdicts."""
import ast
import json
import os
import sys

VERIF = os.path.dirname(os.path.dirname(os.path.abspath(__file__)))
sys.path.insert(0, VERIF)
from pamsa import renames  # noqa: E402
from pamsa.loader import default_root  # noqa: E402

root = os.path.abspath(default_root())
parent = os.path.dirname(root)
trees = {}
for d, dirs, files in os.walk(root):
    dirs[:] = sorted(x for x in dirs if x != "__pycache__")
    for f in sorted(files):
        if f.endswith(".py"):
            p = os.path.join(d, f)
            trees[os.path.relpath(p, parent)] = ast.parse(open(p, encoding="utf-8").read())
tab = renames.describe(trees)
with open(renames._REF, "w", encoding="utf-8") as fh:
    json.dump(tab, fh, indent=0, sort_keys=True)
    fh.write("\n")
print(f"{len(tab['idents'])} identifiers, {len(tab['methods'])} method names, {len(tab['attrs'])} attributes")
