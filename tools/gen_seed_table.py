#!/usr/bin/env python3
"""Rewrite the table of section 10 of DESIGN.md from a result file of
`tools/seedtest.py --all-props --json <file>` and the meta.json of every seeded change."""
import json, os, re, sys
VERIF = os.path.dirname(os.path.dirname(os.path.abspath(__file__)))
res = json.load(open(sys.argv[1]))
rows = ["| seed | the change (first sentence of the author's summary) | own property | also reported by |", "|---|---|---|---|"]
for seed in sorted(res):
    meta = json.load(open(os.path.join(VERIF, "seeded", seed, "meta.json")))
    summ = (meta.get("summary") or meta.get("what") or meta.get("needs") or "").replace("|", "/").replace("\n", " ")
    summ = re.split(r"(?<=[.;])\s", summ)[0][:230]
    own = res[seed].get(seed[:3])
    if isinstance(own, list):
        rc, rules, errs = own
        if rc == 1:
            o = "exit 1: " + ", ".join(rules)
        elif rc == 2:
            o = "exit 2 (outside the model): " + (re.search(r"rule=(\S+)", errs[0]).group(1) if errs else "?")
        else:
            o = "**not reported**"
    else:
        o = str(own)
    others = []
    for p, v in sorted(res[seed].items()):
        if p == seed[:3] or not isinstance(v, list) or v[0] == 0:
            continue
        others.append(f"{p} ({', '.join(v[1]) if v[0] == 1 else 'exit 2'})")
    rows.append(f"| {seed} | {summ} | {o} | {'; '.join(others) or '–'} |")
table = "\n".join(rows)
p = os.path.join(VERIF, "DESIGN.md")
s = open(p).read()
b, e = "<!-- SEEDS:BEGIN -->", "<!-- SEEDS:END -->"
assert b in s and e in s, "markers missing in DESIGN.md"
s = s[: s.index(b) + len(b)] + "\n" + table + "\n" + s[s.index(e):]
open(p, "w").write(s)
n1 = sum(1 for sd in res if isinstance(res[sd].get(sd[:3]), list) and res[sd][sd[:3]][0] == 1)
n2 = sum(1 for sd in res if isinstance(res[sd].get(sd[:3]), list) and res[sd][sd[:3]][0] == 2)
print(f"{len(res)} seeds: {n1} reported as violation by their own property, {n2} as analysis error, {len(res) - n1 - n2} not reported")
