#!/bin/sh
# usage: verify_seed.sh <dir with patch.diff demo.py meta.json> <scratch worktree>
# Confirms a seeded change: applies cleanly, suite still 681 passed / 1 failed, demo fails with it and passes without.
d="$1"; wt="$2"
cd "$wt" || exit 2
git checkout -q -- . && git clean -fdq
PYTHONPATH="$wt" /venv/bin/python -W ignore "$d/demo.py" >/dev/null 2>&1; base=$?
git apply "$d/patch.diff" || { echo "$d APPLY-FAILED"; exit 1; }
PYTHONPATH="$wt" /venv/bin/python -W ignore "$d/demo.py" >/dev/null 2>&1; with=$?
res=$(PYTHONPATH="$wt" /venv/bin/python -m pytest -q -p no:cacheprovider --timeout=900 --continue-on-collection-errors 2>&1 | tail -1)
git checkout -q -- . && git clean -fdq
find "$wt" -name __pycache__ -type d -prune -exec rm -rf {} + 2>/dev/null
echo "$d demo_on_original=$base demo_with_patch=$with suite=[$res]"
