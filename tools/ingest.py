#!/usr/bin/env python3
"""Verify and ingest sub-agent results (default /tmp/seed_out2) into /verif/seeded and /verif/seeded_benign.
usage: tools/ingest.py [--src DIR] [--wt DIR] [names...]   (names like C09 or R3; default: everything present and not yet ingested)"""
import json, os, shutil, subprocess, sys, glob
from concurrent.futures import ThreadPoolExecutor
VERIF = os.path.dirname(os.path.dirname(os.path.abspath(__file__)))
_a = sys.argv[1:]
SRC = _a[_a.index("--src") + 1] if "--src" in _a else "/tmp/seed_out2"
WT = _a[_a.index("--wt") + 1] if "--wt" in _a else "/tmp/seed"
names = [x for i, x in enumerate(_a) if not x.startswith("--") and (i == 0 or _a[i - 1] not in ("--src", "--wt"))] or sorted(os.listdir(SRC))

def one(name):
    out = []
    wt = f"{WT}/{name}"
    if not os.path.isdir(wt):
        subprocess.run(["git", "-C", "/repo", "worktree", "add", "--detach", wt, "HEAD", "-q"], capture_output=True)
    benign = name.startswith("R")
    for v in sorted(os.listdir(os.path.join(SRC, name))):
        d = os.path.join(SRC, name, v)
        if not os.path.isfile(os.path.join(d, "patch.diff")):
            continue
        dest = os.path.join(VERIF, "seeded_benign" if benign else "seeded", f"{name}{v}")
        if os.path.isdir(dest):
            continue
        tool = "verify_benign.sh" if benign else "verify_seed.sh"
        r = subprocess.run([os.path.join(VERIF, "tools", tool), d, wt], capture_output=True, text=True)
        line = (r.stdout.strip().splitlines() or [""])[-1]
        ok = "1 failed, 681 passed" in line and (("demo_on_original=0 demo_with_patch=1" in line) if not benign else (line.split("samples_base=")[1].split()[0] == line.split("samples_patched=")[1].split()[0]))
        out.append((f"{name}{v}", ok, line[-140:]))
        if ok:
            os.makedirs(dest, exist_ok=True)
            shutil.copy(os.path.join(d, "patch.diff"), dest)
            if not benign:
                shutil.copy(os.path.join(d, "demo.py"), dest)
            try:
                meta = json.load(open(os.path.join(d, "meta.json")))
            except Exception:
                meta = {"summary": "(meta.json unreadable)"}
            if not benign:
                meta["property"] = name
            meta["confirmed_by_main_session"] = {"what_i_ran": f"tools/{tool} in a scratch worktree of /repo HEAD", "result": line[-140:]}
            json.dump(meta, open(os.path.join(dest, "meta.json"), "w"), indent=1)
    return out

with ThreadPoolExecutor(8) as ex:
    for res in ex.map(one, names):
        for n, ok, line in res:
            print(("INGESTED " if ok else "REJECTED ") + n, line)
