#!/usr/bin/env python3
"""Regenerate MANIFEST.json from the per-property claim table below.

A property is claimed when its rule module exists under pamsa/rules/; otherwise it is listed
under not_applicable as not yet built.  Run: tools/gen_manifest.py
"""
import json
import os

VERIF = os.path.dirname(os.path.dirname(os.path.abspath(__file__)))
BASE_CMD = "cd /repo && /venv/bin/python -m pytest -ra -q -p no:cacheprovider --timeout=900 --continue-on-collection-errors"

CLAIMS = {
    "C01": ("Decides structurally, on every path of the matching walk: fills pair the current buy-book order with the current sell-book order (provenance of the pending tuples), the stop / price-selection decision table equals the specification in all 108 worlds (limit/market x price order x acceptance order x id order), the round price only ever takes a current order's limit, and all fills are executed after the walk at that single price. Relative to C02 (heap order) this yields both limit bounds and the resting-side price for every history.",
            "decision table (exhaustive finite model) + provenance + heap typestate", "5"),
    "C02": ("Decides the strict-total-order sentence exhaustively (Order._gt_lt equals the lexicographic priority in all 216 worlds; __lt__/__gt__/__le__/__ge__ delegate correctly) and the priority sentence structurally: every queue mutation is heappush/heappop/heapify or followed by heapify on all normal paths, sort keys are written only before insertion, the walk pops a side only when its order is fully allocated and allocates min(remaining).",
            "decision table (exhaustive) + typestate on all paths + who-may-write", "5"),
    "C03": ("Necessary conditions only: the executability predicate is the exact complement of the walk's stop predicate on every book with a limit best order, the walk has no exit other than exhaustion / non-crossing / raise, the only early return is `nothing executable`, popped orders are restored before fills. Termination and exception-freedom over all reachable books, and the both-sides-market-order arithmetic, are NOT decided (DESIGN 7).",
            "decision tables + exit-edge enumeration (necessary conditions)", "5"),
    "C04": ("Decides at-most-once acceptance, market/owner checks, cancel and expiry removal and the expiry boundary: writer allowlists for Order.volume/is_canceled, both books debited by the logged volume, zero/negative table of change_order_volume, one normal form `placed_at + ttl < now` at insert/delete/reap/is_expired, every clock write forwards every expiry record, acceptance guards dominate numbering and insertion, only owner-checked batches reach a market, constructor validation table (144 worlds).",
            "who-may-write/call + comparator normal forms + guard dominance + decision tables", "5"),
    "C05": ("Decides conservation structurally: per fill exactly two cash and two share updates with symbolically cancelling deltas, each applied to the holding's current value (so self-trades conserve too), agents looked up from the log's own ids, no other writer of holdings, each round's logs applied exactly once, whole, before notifications. Float rounding magnitude is conceded by the property.",
            "symbolic cancellation on path summaries + who-may-write + exactly-once/ordering", "5"),
    "C06": ("Decides all sentences under the stated trust base: clock writers and +1 step, callers, ordinary-before-index stepping with time+1 lookups, one unconditional step per iteration and one before the first session, accumulated session offsets, every series read guarded against the future (scalar, aggregated and slice idioms), all 16 getters bound to their own series, series written only at the current slot and only ever extended.",
            "who-may-write/call + polynomial index identities + guard dominance + getter table", "5"),
    "C07": ("Decides reproducibility relative to the enumerated sources of nondeterminism: package-wide banned-API lint with a per-symbol allowlist, generator provenance (every generator seeded by a draw from its owner's, every component handed a fresh one, every draw on an instance generator), no order-exposing use of hash sets, no process-level mutable state, and a taint analysis showing nothing reachable from the caller's settings is mutated (through aliases, loop elements, the deferred-setup idiom and callee summaries).",
            "banned-API lint + provenance + taint analysis with callee summaries", "5"),
    "C08": ("Decides the refresh points, the market-price state machine (16-world table), the carry-forward table of the clock step (128 worlds), per-step counters and the purity of quote/depth views; VWAP is checked as a ratio of sums over the same slots with the zero test on the same slice. Numeric aggregation inside get_price_volume beyond shape is not decided.",
            "must-pass-through + decision tables + polynomial deltas + purity", "5"),
    "C09": ("Decides the two gates, the caps and the interleaving: the order phase is control-dependent on the placement switch and is the only route to submit_orders/_add_order/_cancel_order, every acceptance is followed by a matching round on the same market iff the session's execution switch is on, the switches have an owner allowlist and the halt rule may only restore the session it suspended itself (typestate on a suspension marker), cap comparators in normal form with the test before each consultation, rate gate normal form. Probabilities are not decided.",
            "guard dominance + who-may-write/call + typestate + comparator normal forms", "5"),
}
TECH_DEFAULT = "AST path summaries, call graph and writer sets"


def main() -> None:
    props = [json.loads(l) for l in open(os.path.join(VERIF, "properties.jsonl"))]
    checks, na = [], []
    for p in props:
        pid = p["id"]
        have = os.path.exists(os.path.join(VERIF, "pamsa", "rules", pid.lower() + ".py"))
        if have and pid in CLAIMS:
            text, tech, sec = CLAIMS[pid]
            checks.append({
                "property_id": pid,
                "quick_cmd": f"./check {pid} --tier quick",
                "thorough_cmd": f"./check {pid} --tier thorough",
                "evidence_file": f"evidence/{pid}.json",
                "replay_cmd_template": f"./check {pid} --replay {{path}}",
                "engine": "pamsa",
                "level_claimed": {"category": "other", "text": text, "design_ref": f"DESIGN.md section {sec} ({pid})"},
                "level_note": "Static analysis of /repo/pams sources only (python ast); trusted base: CPython/heapq/random/numpy behave as documented, pams is not monkey-patched, user code uses the documented API, floats idealised as reals in normal forms. `on all paths` = all normal (non-raising) paths.",
                "technique": "static analysis: " + tech,
            })
        else:
            na.append({"property_id": pid, "reason": "check not built yet (work in progress; DESIGN.md section 5 describes the planned rules)"})
    m = {
        "version": 1,
        "setup_cmd": "./check --selfcheck",
        "hooks": {
            "guard": "PAMS_VERIF",
            "enable": "none needed: the checks read /repo/pams sources; pams is never built, imported or instrumented",
            "baseline_off_cmd": BASE_CMD,
            "source_commits": [],
            "add_only": True,
        },
        "engines": [{"name": "pamsa", "path": "pamsa/", "serves_properties": [c["property_id"] for c in checks],
                     "kind_free_text": "repository-specific static analyser: ast loader, annotation-driven type resolver, call graph + attribute-writer sets, path-sensitive evaluator producing path summaries, polynomial/comparator normal forms, finite-model decision tables"}],
        "checks": checks,
        "notes": "Exit codes: 0 property held on everything analysed; 1 + VIOLATION line; 2 + ANALYSIS-ERROR (unrecognised idiom / vanished anchor: the analysis cannot decide, never reported as a violation). Genuine defects found and repaired are listed in known_findings.json (status fixed).",
        "not_applicable": na,
    }
    with open(os.path.join(VERIF, "MANIFEST.json"), "w") as fh:
        json.dump(m, fh, indent=1)
    print(f"claimed {len(checks)}, not applicable {len(na)}")


if __name__ == "__main__":
    main()
