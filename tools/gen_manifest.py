#!/usr/bin/env python3
"""Regenerate MANIFEST.json from the per-property claim table below.

A property is claimed when its rule module exists under pamsa/rules/; otherwise it is listed
under not_applicable as not yet built.  Run: tools/gen_manifest.py
"""
import json
import os

VERIF = os.path.dirname(os.path.dirname(os.path.abspath(__file__)))
BASE_CMD = "cd /repo && /venv/bin/python -m pytest -ra -q -p no:cacheprovider --timeout=900 --continue-on-collection-errors"

CLAIMS = {
    "C01": ("Decides structurally, on every path of the matching walk: fills pair the current buy-book order with the current sell-book order (provenance of the pending tuples), the stop / price-selection decision table equals the specification in all 108 worlds (limit/market x price order x acceptance order x id order), the round price only ever takes a current order's limit, and all fills are executed after the walk at that single price. Relative to C02 (heap order) this yields both limit bounds and the resting-side price for every history.",
            "decision table (exhaustive finite model) + provenance + heap typestate", "5"),
    "C02": ("Decides the strict-total-order sentence exhaustively (Order._gt_lt equals the lexicographic priority in all 216 worlds; __lt__/__gt__/__le__/__ge__ delegate correctly) and the priority sentence structurally: every queue mutation is heappush/heappop/heapify or followed by heapify on all normal paths, sort keys are written only before insertion, the walk pops a side only when its order is fully allocated and allocates min(remaining).",
            "decision table (exhaustive) + typestate on all paths + who-may-write", "5"),
    "C03": ("Necessary conditions only: the executability predicate is the exact complement of the walk's stop predicate on every book with a limit best order, the walk has no exit other than exhaustion / non-crossing / raise, the only early return is `nothing executable`, popped orders are restored before fills. Termination and exception-freedom over all reachable books, and the both-sides-market-order arithmetic, are NOT decided (DESIGN 7).",
            "decision tables + exit-edge enumeration (necessary conditions)", "5"),
    "C04": ("Decides at-most-once acceptance, market/owner checks, cancel and expiry removal and the expiry boundary: writer allowlists for Order.volume/is_canceled, both books debited by the logged volume, zero/negative table of change_order_volume, one normal form `placed_at + ttl < now` at insert/delete/reap/is_expired, every clock write forwards every expiry record, acceptance guards dominate numbering and insertion, only owner-checked batches reach a market, constructor validation table (144 worlds).",
            "who-may-write/call + comparator normal forms + guard dominance + decision tables", "5"),
    "C05": ("Decides conservation structurally: per fill exactly two cash and two share updates with symbolically cancelling deltas, each applied to the holding's current value (so self-trades conserve too), agents looked up from the log's own ids, no other writer of holdings, each round's logs applied exactly once, whole, before notifications. Float rounding magnitude is conceded by the property.",
            "symbolic cancellation on path summaries + who-may-write + exactly-once/ordering", "5"),
    "C06": ("Decides all sentences under the stated trust base: clock writers and +1 step, callers, ordinary-before-index stepping with time+1 lookups, one unconditional step per iteration and one before the first session, accumulated session offsets, every series read guarded against the future (scalar, aggregated and slice idioms), all 16 getters bound to their own series, series written only at the current slot and only ever extended.",
            "who-may-write/call + polynomial index identities + guard dominance + getter table", "5"),
    "C07": ("Decides reproducibility relative to the enumerated sources of nondeterminism: package-wide banned-API lint with a per-symbol allowlist, generator provenance (every generator seeded by a draw from its owner's, every component handed a fresh one, every draw on an instance generator), no order-exposing use of hash sets, no process-level mutable state, and a taint analysis showing nothing reachable from the caller's settings is mutated (through aliases, loop elements, the deferred-setup idiom and callee summaries).",
            "banned-API lint + provenance + taint analysis with callee summaries", "5"),
    "C08": ("Decides the refresh points, the market-price state machine (16-world table), the carry-forward table of the clock step (128 worlds), per-step counters and the purity of quote/depth views; VWAP is checked as a ratio of sums over the same slots with the zero test on the same slice. Numeric aggregation inside get_price_volume beyond shape is not decided.",
            "must-pass-through + decision tables + polynomial deltas + purity", "5"),
    "C09": ("Decides the two gates, the caps and the interleaving: the order phase is control-dependent on the placement switch and is the only route to submit_orders/_add_order/_cancel_order, every acceptance is followed by a matching round on the same market iff the session's execution switch is on, the switches have an owner allowlist and the halt rule may only restore the session it suspended itself (typestate on a suspension marker), cap comparators in normal form with the test before each consultation, rate gate normal form. Probabilities are not decided.",
            "guard dominance + who-may-write/call + typestate + comparator normal forms", "5"),
    "C10": ("Decides exactly-one sink per record class (package-wide table of logger sinks by the record classes that can flow into them; one write per created record iff a logger is attached; receivers of returned records never write them again), forwarding of every expiry record, field-copy agreement of the four records and their constructors, order preservation in the logger, exhaustive dispatch over all Log subclasses, and begin/end bracketing of simulation, sessions and market steps.",
            "interprocedural sink table + field-copy agreement + dispatch exhaustiveness + bracketing sequences", "5"),
    "C11": ("Decides that in all four handling blocks (order/cancel x normal/high-frequency) the owner looked up from the order's own agent_id is told exactly once with the market's record before the after-hook, that each fill's buyer and seller are told once each after the whole-round holdings update, and that nothing else in pams invokes the callbacks.",
            "exactly-once / provenance on path summaries + who-may-call", "5"),
    "C12": ("Decides history preservation and continuation: regeneration keeps prices[: G+1], continues from prices[G] and advances G by the generated length; every parameter setter and the shock move G on every normal path; writers of G and prices are allowlisted. Necessary conditions only for positivity (validation table, level x exp form) and for the return transform (mirrored correlation cells, vol*corr*vol, lower Cholesky from the left, per-row drift, restacking). That log-returns HAVE the configured mean/deviation/correlation is distributional and NOT decided.",
            "slice/index identities + all-paths setter rule + factor-structure matching (necessary conditions)", "5"),
    "C13": ("Decides the hook table: registration key, table slots, trigger and handler agree for all nine (type, when) rows; every trigger takes hooks[None] ++ hooks[time] with the tabulated time source and calls each selected hook once (market triggers under the class/instance filter, whose predicate table is checked in 16 worlds); the run loop calls each trigger once per occurrence in the tabulated order and nobody else does; duplicate registration is rejected first, a time listed twice enters a hook once, EventHook validation table (192 worlds); each event's hooks are registered once for that very event (closure-capture check).",
            "writer/reader table agreement + decision tables + ordering on path summaries + who-may-call", "5"),
    "C14": ("Decides hook placement and window of both shocks (trigger = session start + offset; window comprehension; target-instance filter; nothing when disabled), the overridden fields and once-flag typestate of the order-mistake shock, and the target-filter discipline for every event class (effects only after a decision that the occurrence's market is a target). The shock's own effect on the fundamental series is the rule shared with C12.",
            "hook-declaration extraction + guard dominance (target filter) + once-flag typestate + polynomial forms", "5"),
    "C15": ("Decides the all-times order-before hook, the clamp shape min(max(p, p0(1-r)), p0(1+r)) with p0 the order's own market price at time 0 (either nesting; pass-through only under the in-band decision), market orders returned before arithmetic, the handler writing exactly the helper's result, the target filter, and (shared with C13) that the hook precedes acceptance in both phases. The 'band widened by one tick' corollary follows from C01 + C19 and is argued, not checked.",
            "clamp shape by polynomial normal forms + guard dominance + ordering", "5"),
    "C16": ("Decides the first sentence (running test dominates every effect of the only fill routine; fills are created nowhere else). Necessary conditions for halt/resume: comparator normal forms, effects of a halt, per-target step-begin hooks, no running test on placement/cancel paths, the after-execution hook reaching the rule in both phases (shared with C13) and the suspension-marker typestate (shared with C09). Run-level timing is NOT decided.",
            "guard dominance + comparator normal forms + typestate", "5"),
    "C17": ("Decides structurally: both index computations are sum(getter(time) x shares)/sum(shares) over the components with one weight term, current time substituted only for None, getters forward time, components enter only through the validating method (duplicate and missing-shares tests dominate the append; single writer), and (shared with C06) index markets are stepped after their components with time+1.",
            "accumulator shape on loop summaries + guard dominance + who-may-write", "5"),
    "C18": ("Decides the inheritance loop (copy, missing-parent and cycle errors dominate the merge, nearest definition wins by dict(parent_items, **accumulated)), count agreement between naming and iteration on every branch of both generators, single running id counter, duplicate guards of the three registries, accessible markets = union of listed groups, the JsonRandom dispatch table and affine uniform draw, legacy-key agreement in Session.setup, and class lookup with exactly-one-match. Distribution supports beyond sign/affine shape are not decided.",
            "loop-structure matching + polynomial count agreement + dispatch table + sibling agreement", "5"),
    "C19": ("Decides over the reals: the price is rewritten exactly when it is an off-grid limit price, buy -> floor and sell -> ceil through the helper chain (inlined), the result is that level times the same tick size, and rounding precedes numbering, insertion and logging. The '< one tick' magnitude under binary floating point is NOT decided.",
            "control dependence + direction table through inlined helpers + product form", "5"),
    "C20": ("Decides well-formedness (own id, kind/price) at all 11 construction sites, that an access test on the very market dominates every construction (or setup rejects the target), FCN direction (strict comparators, one order per active mode) and fixed-margin quotes E(1-k)/E(1+k), market-maker symmetry with m = fundamental x spread / 2, the arbitrage precondition/direction/volume table and the market-share agent's single delegation on an accessible market. The numeric expected-return formula is NOT decided.",
            "construction-site lint + guard dominance + direction tables + polynomial forms", "5"),
}
# clauses added after the first claim (rules written from the seeded changes, DESIGN.md section 10.3)
EXTRA = {
    "C17": "Also: weights are read from the components when the index is computed (a list of share counts kept on the index market is reported). Only _add_market changes the component list, and nobody changes the list get_components() hands out.",
    "C11": "Shared premise: one agent per id in the table the call backs are routed through (registry part of C18.R2). A call back made under a condition the rules do not know is refused (analysis error), not decided. Matching rounds are started only where their fills are reported, and a round hands back exactly its own fills (C05.R3, C05.R5).",
    "C08": "Also: per-price depth maps every price in the queue to the sum of the volumes at that price; the best quote is read from the top of a valid heap (C02.R2). Every series grows only by fresh slots appended to itself (C06.R5).",
    "C03": "Shared premises (necessary conditions of `never raises`): fresh read of the session switches (C09.R2), halt rule closes the market with a record that lets it restart (C16.R2), cancel and expiry bookkeeping stay consistent with the queue (C04.R6), no order of non-positive volume (C04.R9), unique ids (C02.R7), a round with a limit order ends with a price, 0 included (C01.R2), order kinds compared by value.",
    "C02": "Also: order ids are unique within a market and grow with acceptance (counter started by the constructor only, advanced past every id handed out); hooks that may rewrite a pending order run before it is handed to the market. Prices, times and ids are compared by value where orders are ranked (no `is` on numbers). Only Market._add_order calls OrderBook.add (which stamps the acceptance time); the comparator reads no constructor field of Order besides the priority keys. Decided for a queue kept with heapq; a queue kept otherwise is refused (analysis error).",
    "C01": "Shared premise: tick rounding of the limits a trade is held to (C19.R2); order comparator is the price/time/id order (C02.R1); no fill happens before the walk over the book.",
    "C04": "Also: removal by equality removes the order meant (Order equality implies equal ids); the `now` of expiry is the market clock (both books are set to it at every clock write, C06.R6); every cancel/expiry record is written for the object removed (C10.R3). A removed order also leaves its expiry bucket; whole buckets are dropped by the reaper only.",
    "C05": "Also: the holdings containers do not escape (getters return values or copies, no rebinding outside the owner); the logs of each matching round are applied exactly once before any party is notified; what a round hands back is exactly the list of the fills it made. The agent a fill changes is the one registered under the id the fill names (registry filing, C18.R2).",
    "C06": "Also: both order books are set to exactly the market's new time by every clock method and store exactly the time they are given; the recorded series are indexed only by the market's own guarded accessors. A session length of 0 is taken as configured (no truthiness test).",
    "C09": "Which generator provides a draw is not part of this claim (C07 decides that); the session keys behind switches, caps and rate are decided by the rule shared with C18; every agent is filed in exactly one of the two populations; settings of one session never reach the next; a matching round that was started only returns early on `nothing executable` (C03.R4). Step hooks run whatever the session prints (C13.R3); every declared hook is entered in the table (C13.R4).",
    "C10": "Also: every subclass constructor forwards the logger; record fields are read after the event's last write (stale locals are reported); a cancel record carries the time of the cancel. Only write/bulk_write add to the pending list and only the constructor and _process (after processing) rebind it; an expiry record is written only for an order still resting (C04.R6). Fields of a record are not changed by a function that was given the record (agent call backs, logger handlers).",
    "C12": "Also decided: lookups return values only below the regeneration point (or, if they go by series length, every mover of the point cuts the tail); chunk planning (a chunk ends at the next market start; exactly the markets started before the chunk's end are regenerated); every drift is taken from the id list of its own partition; what a generator changes in place belongs to that generator object; every configured correlation reaches the generator, in whatever order its two markets are named, and only set_correlation / remove_correlation change the table. set_correlation / remove_correlation change exactly the named pair's entry, whichever way round it is stored (finite model). The fundamental path starts at fundamentalPrice if given, else marketPrice (finite model over the keys present).",
    "C13": "Also: a hook is registered under its own time list when one is given (an empty list is not `always`), dispatch loops never stop early, every declared hook is registered for the event that declared it (closure or method callback). Times, names and hook types are compared by value; a step trigger is not skipped for lack of a logger; the all-times bucket precedes the timed one.",
    "C14": "Also: the window length is the configured value and has no other writer. Shared premises: dispatch reaches every hook (C13.R2), regeneration continues from the shocked level (C12.R1). Session start times accumulate the lengths of all earlier sessions (C06.R3).",
    "C15": "Also: the target table holds exactly the configured markets under their own names and is created per rule object. Shared premise: the rule's hook is registered for that very rule (C13.R5). Whether an order is a limit order is decided by value. The width of the price range is stored, outside the constructor, with the configured rate only; every event listed in a session is created.",
    "C16": "Also: target table and halt records are per rule object and hold the configured markets. Shared premises: dispatch of fill and step-begin hooks (C13.R2), market-price refresh after a fill (C08.R2). Every path of the resume handler that leaves a target market halted has a stated reason (a test of the start time against a constant is not one); running flags are set from the new session at every session start (C09.R2). Halt length and rate are stored, outside the constructor, with their configured values only.",
    "C18": "Also: the configuration is never changed in place (group expansion works on the copy returned by json_extends), so a parent group read later still carries its count, range and prefix; defaults and configured values of one group never leak into the next; json is loaded without hooks that drop or rewrite entries. A configured number is used as configured, 0 included (no `x or default`, no truthiness test for presence, in any setup() or runner configuration reader); registries compare ids and names by value, each in its own table. Registered user classes are only appended; each registry files an object under its own id and name.",
    "C19": "The side is decided by the truth value of the flag (as the order book files the order), not by identity with True. Whether an order carries a price to round is decided by value. Hooks that may rewrite a price run before the market rounds and accepts the order (C13.R3).",
    "C20": "Also: the FCN expected future price is the documented formula, decided as a polynomial identity over its components (weights, log ratios, window, noise draw) for both trend attitudes; an arbitrage agent passes every market's basket on whole; an FCN agent runs its strategy on every market it is given and can access, and prices the order off that market's own price. Evaluation of the formula in floats is not decided. Configured thresholds and weights are used as configured, 0 included.",
}
TECH_DEFAULT = "AST path summaries, call graph and writer sets"


def main() -> None:
    props = [json.loads(l) for l in open(os.path.join(VERIF, "properties.jsonl"))]
    checks, na = [], []
    for p in props:
        pid = p["id"]
        have = os.path.exists(os.path.join(VERIF, "pamsa", "rules", pid.lower() + ".py"))
        if have and pid in CLAIMS:
            text, tech, sec = CLAIMS[pid]
            if pid in EXTRA:
                text = text.rstrip() + " " + EXTRA[pid]
            checks.append({
                "property_id": pid,
                "quick_cmd": f"./check {pid} --tier quick",
                "thorough_cmd": f"./check {pid} --tier thorough",
                "evidence_file": f"evidence/{pid}.json",
                "replay_cmd_template": f"./check {pid} --replay {{path}}",
                "engine": "pamsa",
                "level_claimed": {"category": "other", "text": text, "design_ref": f"DESIGN.md section {sec} ({pid})"},
                "level_note": "Static analysis of /repo/pams sources only (python ast); trusted base: CPython/heapq/random/numpy behave as documented, pams is not monkey-patched, user code uses the documented API, floats idealised as reals in normal forms. `on all paths` = all normal (non-raising) paths.",
                "technique": "static analysis: " + tech,
            })
        else:
            na.append({"property_id": pid, "reason": "check not built yet (work in progress; DESIGN.md section 5 describes the planned rules)"})
    m = {
        "version": 1,
        "setup_cmd": "./check --selfcheck",
        "hooks": {
            "guard": "PAMS_VERIF",
            "enable": "none needed: the checks read /repo/pams sources; pams is never built, imported or instrumented",
            "baseline_off_cmd": BASE_CMD,
            "source_commits": [],
            "add_only": True,
        },
        "engines": [{"name": "pamsa", "path": "pamsa/", "serves_properties": [c["property_id"] for c in checks],
                     "kind_free_text": "repository-specific static analyser: ast loader, annotation-driven type resolver, call graph + attribute-writer sets, path-sensitive evaluator producing path summaries, polynomial/comparator normal forms, finite-model decision tables"}],
        "checks": checks,
        "notes": "Exit codes: 0 property held on everything analysed; 1 + VIOLATION line; 2 + ANALYSIS-ERROR (unrecognised idiom / vanished anchor: the analysis cannot decide, never reported as a violation). Genuine defects found and repaired are listed in known_findings.json (status fixed).",
        "not_applicable": na,
    }
    with open(os.path.join(VERIF, "MANIFEST.json"), "w") as fh:
        json.dump(m, fh, indent=1)
    print(f"claimed {len(checks)}, not applicable {len(na)}")


if __name__ == "__main__":
    main()
