#!/usr/bin/env python3
"""Offline sweep (not a registered check): generic mutants of every function the rules look at,
each analysed by every property whose rules touch that function.  Lists the mutants that no
property reports -- candidates for rule gaps (many are equivalent or irrelevant mutants).

usage: tools/mutation_matrix.py [--max-per-func N] [--out FILE]
Static only: mutants are source overlays analysed by ./check's rule engine."""
import ast
import json
import os
import sys
from concurrent.futures import ProcessPoolExecutor

VERIF = os.path.dirname(os.path.dirname(os.path.abspath(__file__)))
sys.path.insert(0, VERIF)

from pamsa import selftest as st  # noqa: E402
from pamsa.loader import Program  # noqa: E402

PROPS = [f"C{i:02d}" for i in range(1, 21)]


def _one(args):
    props, path, src, label = args
    from pamsa.driver import check

    hits = {}
    for p in props:
        try:
            rc = check(p, "quick", None, {path: src}, quiet=True, write=False)
            if rc != 0:
                insts = check.last_instances
                hits[p] = (rc, sorted({i.rule for i in insts if i.verdict != "HOLDS"})[:4])
        except BaseException as e:
            hits[p] = (2, [f"crash {type(e).__name__}"])
    return label, hits


def main():
    maxpf = 40
    out = "/tmp/mutation_matrix.json"
    a = sys.argv[1:]
    if "--max-per-func" in a:
        maxpf = int(a[a.index("--max-per-func") + 1])
    if "--out" in a:
        out = a[a.index("--out") + 1]
    anchored = {}
    sources = None
    for p in PROPS:
        quals, sources = st.anchored_functions(p, None)
        for q in quals:
            anchored.setdefault(q, []).append(p)
    program = Program(None)
    jobs = []
    import random

    rnd = random.Random(int(os.environ.get("VERIF_SEED", "0") or 0))
    for q, props in sorted(anchored.items()):
        if len(props) >= 15:
            # functions only touched by the package-wide lints (C07): keep just C07
            pass
        f = program.functions[q]
        tree = ast.parse(sources[f.file])
        ms = list(st.gen_mutants(tree, q))
        if len(ms) > maxpf:
            ms = rnd.sample(ms, maxpf)
        for desc, t2 in ms:
            jobs.append((props, f.file, ast.unparse(t2), desc))
    print(f"{len(anchored)} functions, {len(jobs)} mutants", flush=True)
    res = {}
    with ProcessPoolExecutor(16) as ex:
        for i, (label, hits) in enumerate(ex.map(_one, jobs, chunksize=2)):
            res[label] = hits
            if i % 200 == 0:
                print(i, flush=True)
    surv = sorted(l for l, h in res.items() if not h)
    viol = sum(1 for h in res.values() if any(rc == 1 for rc, _ in h.values()))
    err = sum(1 for h in res.values() if h and not any(rc == 1 for rc, _ in h.values()))
    print(f"mutants={len(res)} reported-as-violation={viol} analysis-error-only={err} unreported={len(surv)}")
    json.dump({"results": res, "survivors": surv}, open(out, "w"), indent=1)
    by_func = {}
    for s in surv:
        by_func.setdefault(s.split(":")[0], []).append(s)
    for fn, ss in sorted(by_func.items(), key=lambda kv: -len(kv[1])):
        print(f"{fn}: {len(ss)} unreported")


if __name__ == "__main__":
    main()
