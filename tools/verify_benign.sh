#!/bin/sh
# usage: verify_benign.sh <dir with patch.diff> <scratch worktree>
# Confirms a refactoring: applies cleanly, suite still 681 passed / 1 failed, and three sample runs print the same output as the pristine tree.
d="$1"; wt="$2"
cd "$wt" || exit 2
git checkout -q -- . && git clean -fdq
run_samples() { for s in CI2002 fat_finger shock_transfer trading_halt price_limit; do [ -f samples/$s/main.py ] && PYTHONPATH="$wt" /venv/bin/python -W ignore samples/$s/main.py --config samples/$s/config.json --seed 1 2>/dev/null | grep -v "TIME"; done | md5sum | cut -c1-12; }
base=$(run_samples)
git apply "$d/patch.diff" || { echo "$d APPLY-FAILED"; exit 1; }
with=$(run_samples)
res=$(PYTHONPATH="$wt" /venv/bin/python -m pytest -q -p no:cacheprovider --timeout=900 --continue-on-collection-errors 2>&1 | tail -1)
git checkout -q -- . && git clean -fdq
find "$wt" -name __pycache__ -type d -prune -exec rm -rf {} + 2>/dev/null
echo "$d samples_base=$base samples_patched=$with suite=[$res]"
