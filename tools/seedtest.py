#!/usr/bin/env python3
"""Run the registered quick checks against every seeded change (applied in a scratch worktree).

usage: tools/seedtest.py [seed names...] [--props C01,C02] [--all-props]
For each seed: git apply in /tmp/seedwt (a detached worktree of /repo HEAD), run
`./check <P> --no-write --root /tmp/seedwt/pams` for the seed's own property (or all), revert.
"""
import json, os, shutil, subprocess, sys, glob
from concurrent.futures import ThreadPoolExecutor
VERIF = os.path.dirname(os.path.dirname(os.path.abspath(__file__)))
_argv = sys.argv[1:]
_json_out = _argv[_argv.index("--json") + 1] if "--json" in _argv else None
args = [a for a in _argv if not a.startswith("--") and a != _json_out]
allprops = "--all-props" in sys.argv
seeds = args or sorted(os.listdir(os.path.join(VERIF, "seeded")))
PROPS = [f"C{i:02d}" for i in range(1, 21)]
have = {c["property_id"] for c in json.load(open(os.path.join(VERIF, "MANIFEST.json")))["checks"]} | {p for p in PROPS if os.path.exists(os.path.join(VERIF, "pamsa", "rules", p.lower() + ".py"))}

def run(seed):
    wt = f"/tmp/seedwt_{seed}"
    shutil.rmtree(wt, ignore_errors=True)
    os.makedirs(wt)
    subprocess.run(f"git -C /repo archive HEAD | tar -x -C {wt}", shell=True, check=True)
    try:
        r = subprocess.run(["git", "-C", wt, "apply", os.path.join(VERIF, "seeded", seed, "patch.diff")], capture_output=True, text=True)
        if r.returncode:
            return seed, {"apply": r.stderr.strip()[:200]}
        own = seed[:3]
        res = {}
        for p in (PROPS if allprops else [own]):
            if p not in have:
                res[p] = "n/a"; continue
            r = subprocess.run([os.path.join(VERIF, "check"), p, "--no-write", "--root", wt + "/pams"], capture_output=True, text=True)
            rules = sorted({l.split()[1] for l in r.stdout.splitlines() if l.strip().startswith("violated:")})
            errs = [l for l in r.stdout.splitlines() if l.startswith("ANALYSIS-ERROR")]
            res[p] = (r.returncode, rules, errs[:2])
        return seed, res
    finally:
        shutil.rmtree(wt, ignore_errors=True)

allres = {}
with ThreadPoolExecutor(14) as ex:
    for seed, res in ex.map(run, seeds):
        allres[seed] = res
        own = seed[:3]
        o = res.get(own)
        status = "CAUGHT" if isinstance(o, tuple) and o[0] == 1 else ("ERROR" if isinstance(o, tuple) and o[0] == 2 else "MISSED")
        extra = {p: v for p, v in res.items() if p != own and isinstance(v, tuple) and v[0] != 0}
        print(f"{seed}: {status} {o} " + (f"others={extra}" if extra else ""))

if _json_out:
    json.dump(allres, open(_json_out, "w"), indent=1)
