#!/bin/sh
# usage: tools/seedshow.sh <seed> [property]  -- apply a seeded change to a scratch copy and show what the check reports
s="$1"; p="${2:-$(echo "$s" | sed "s/^F//" | cut -c1-3)}"
wt="/tmp/benignshow_$$"
here="$(cd "$(dirname "$0")/.." && pwd)"
mkdir -p "$wt" && git -C /repo archive HEAD | tar -x -C "$wt" && patch -s -p1 -d "$wt" < "$here/seeded_benign/$s/patch.diff"
"$here/check" "$p" --no-write --root "$wt/pams" | grep -v "HOLDS\|^RULE" 
rm -rf "$wt"
