#!/usr/bin/env python3
"""Verify and ingest corrected versions of seeded refactorings (/tmp/fix_out/<seed>/patch.diff) into
/verif/seeded_benign/F<seed>.  A corrected version keeps the refactored shape of seeded/<seed> with the
slip removed; it must leave the test suite and the sample outputs as on the pristine tree, must make the
seed's demo pass, and may only touch files the seeded patch touched.
usage: tools/ingest_fixed.py [--src DIR] [seeds...]"""
import json, os, re, shutil, subprocess, sys
VERIF = os.path.dirname(os.path.dirname(os.path.abspath(__file__)))
a = sys.argv[1:]
SRC = a[a.index("--src") + 1] if "--src" in a else "/tmp/fix_out"
names = [x for i, x in enumerate(a) if not x.startswith("--") and (i == 0 or a[i - 1] != "--src")] or sorted(n for n in os.listdir(SRC) if re.fullmatch(r"C\d\d[a-z]", n))


def files_of(patch):
    return sorted(set(re.findall(r"^\+\+\+ b/(\S+)", open(patch).read(), re.M)))


wt = "/tmp/fixwt"
subprocess.run(["git", "-C", "/repo", "worktree", "remove", "--force", wt], capture_output=True)
subprocess.run(["git", "-C", "/repo", "worktree", "add", "--detach", wt, "HEAD", "-q"], check=True)
try:
    for n in names:
        pd = os.path.join(SRC, n, "patch.diff")
        if not os.path.isfile(pd) or os.path.getsize(pd) == 0:
            print("ABSENT  ", n)
            continue
        dest = os.path.join(VERIF, "seeded_benign", "F" + n)
        seed = os.path.join(VERIF, "seeded", n)
        extra = [f for f in files_of(pd) if f not in files_of(os.path.join(seed, "patch.diff"))]
        if extra and "--allow-extra" not in a:
            print("REJECTED", n, "touches files the seeded patch does not:", extra)
            continue
        r = subprocess.run([os.path.join(VERIF, "tools", "verify_benign.sh"), os.path.join(SRC, n), wt], capture_output=True, text=True)
        line = (r.stdout.strip().splitlines() or [""])[-1]
        ok = "1 failed, 681 passed" in line and "samples_base=" in line and line.split("samples_base=")[1].split()[0] == line.split("samples_patched=")[1].split()[0]
        demo = None
        if ok:
            subprocess.run(["git", "-C", wt, "apply", pd], check=True)
            demo = subprocess.run(["/venv/bin/python", "-W", "ignore", os.path.join(seed, "demo.py")], cwd=wt, env=dict(os.environ, PYTHONPATH=wt), capture_output=True).returncode
            subprocess.run("git checkout -q -- . && git clean -fdq", shell=True, cwd=wt)
            ok = demo == 0
        print(("INGESTED" if ok else "REJECTED"), n, line[-120:], f"demo={demo}")
        if ok:
            os.makedirs(dest, exist_ok=True)
            shutil.copy(pd, dest)
            try:
                meta = json.load(open(os.path.join(SRC, n, "meta.json")))
            except Exception:
                meta = {}
            meta["origin"] = f"corrected version of seeded/{n} (same refactored shape, slip removed), written by a sub-agent that saw only the seeded patch and its description"
            meta["confirmed_by_main_session"] = {"what_i_ran": "tools/ingest_fixed.py: verify_benign.sh (suite + five sample outputs against the pristine tree) and the seed's demo on the corrected tree", "result": line[-120:] + f" demo={demo}"}
            json.dump(meta, open(os.path.join(dest, "meta.json"), "w"), indent=1)
finally:
    subprocess.run(["git", "-C", "/repo", "worktree", "remove", "--force", wt], capture_output=True)
