#!/venv/bin/python
"""Rewrite Appendix C of DESIGN.md (the list of registered rules) from the rule registry."""
import importlib, os, sys
VERIF = os.path.dirname(os.path.dirname(os.path.abspath(__file__)))
sys.path.insert(0, VERIF)
from pamsa import kit  # noqa: E402

for i in range(1, 21):
    importlib.import_module(f"pamsa.rules.c{i:02d}")


def k(r):
    p, q = r.split(".")
    return (p, q[0] != "R", int(q[1:]))


rows = ["| rule | what it decides | template | floor |", "|---|---|---|---|"]
for rid in sorted(kit.REGISTRY, key=k):
    r = kit.REGISTRY[rid]
    rows.append(f"| {rid} | {r.title} | {r.template} | {r.floor} |")
p = os.path.join(VERIF, "DESIGN.md")
s = open(p).read()
b, e = "<!-- RULES:BEGIN -->", "<!-- RULES:END -->"
assert b in s and e in s
s = s[: s.index(b) + len(b)] + "\n" + "\n".join(rows) + "\n" + s[s.index(e):]
open(p, "w").write(s)
print(len(kit.REGISTRY), "rules")
