#!/usr/bin/env python3
"""Run every registered quick check against every behaviour-preserving refactoring in
/verif/seeded_benign (applied in a scratch worktree); every check must stay at exit 0."""
import json, os, shutil, subprocess, sys
from concurrent.futures import ThreadPoolExecutor
VERIF = os.path.dirname(os.path.dirname(os.path.abspath(__file__)))
_argv = sys.argv[1:]
_props = _argv[_argv.index("--props") + 1] if "--props" in _argv else None   # --props C04,C09: only these checks (targeted regression)
names = [a for a in _argv if not a.startswith("--") and a != _props] or sorted(os.listdir(os.path.join(VERIF, "seeded_benign")))
PROPS = _props.split(",") if _props else [f"C{i:02d}" for i in range(1, 21)]

def run(name):
    wt = f"/tmp/benignwt_{name}"
    shutil.rmtree(wt, ignore_errors=True)
    os.makedirs(wt)
    subprocess.run(f"git -C /repo archive HEAD | tar -x -C {wt}", shell=True, check=True)
    try:
        r = subprocess.run(["git", "-C", wt, "apply", os.path.join(VERIF, "seeded_benign", name, "patch.diff")], capture_output=True, text=True)
        if r.returncode:
            return name, {"apply": r.stderr.strip()[:200]}
        res = {}
        for p in PROPS:
            r = subprocess.run([os.path.join(VERIF, "check"), p, "--no-write", "--root", wt + "/pams"], capture_output=True, text=True)
            if r.returncode != 0:
                lines = [l.strip()[:260] for l in r.stdout.splitlines() if l.strip().startswith(("violated:", "ANALYSIS-ERROR", "found:"))]
                res[p] = (r.returncode, lines[:4])
        return name, res
    finally:
        shutil.rmtree(wt, ignore_errors=True)

bad = 0
with ThreadPoolExecutor(14) as ex:
    for name, res in ex.map(run, names):
        if res:
            bad += 1
            print(f"{name}: ALARM")
            for p, v in res.items() if isinstance(res, dict) else []:
                print(f"    {p}: {v}")
        else:
            print(f"{name}: silent")
print(f"{len(names) - bad}/{len(names)} refactorings leave all {len(PROPS)} checks run silent")
